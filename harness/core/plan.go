package core

import (
	"encoding/json"
	"fmt"
	"hash/fnv"
	"sort"
	"strings"
)

// Op is one generated operation. The representation is uniform across
// simulations so that the generic minimiser can drop and shrink operations
// without knowing what they mean: K is the kind, T the task that issues it
// (multi-task simulations), A integer arguments (indices, amounts, counts,
// durations), S string arguments (hex for byte strings).
type Op struct {
	K string   `json:"k"`
	T int      `json:"t,omitempty"`
	A []int64  `json:"a,omitempty"`
	S []string `json:"s,omitempty"`
}

func (o Op) Arg(i int) int64 {
	if i < len(o.A) {
		return o.A[i]
	}
	return 0
}
func (o Op) Str(i int) string {
	if i < len(o.S) {
		return o.S[i]
	}
	return ""
}

// Fault is one injected fault, positioned relative to the plan's operations:
// while operation number Op executes, the N-th event of kind Kind is turned
// into a failure (e.g. Kind "dbwrite", N=3: the third mutating database call
// of that operation returns an error).
type Fault struct {
	Op   int    `json:"op"`
	Kind string `json:"kind"`
	N    int    `json:"n"`
	Arg  int64  `json:"arg,omitempty"`
}

// Plan is what executes. generate(seed) -> Plan; execute(Plan) is a pure
// function of the Plan and the code under test. A minimised Plan is still
// executable, and it is the replay file.
type Plan struct {
	Sim   string           `json:"sim"`
	Prop  string           `json:"prop"`
	Tier  string           `json:"tier"`
	Seed  uint64           `json:"seed"`
	Cfg   map[string]int64 `json:"cfg,omitempty"`
	Ops   []Op             `json:"ops"`
	Fault []Fault          `json:"faults,omitempty"`
	// Sched selects the scheduling strategy for multi-task simulations:
	// "" (single task), "random", "pct", "rtb" (run-to-block with forced
	// preemptions) and the PRNG seed for its decisions.
	Sched     string `json:"sched,omitempty"`
	SchedSeed uint64 `json:"sched_seed,omitempty"`
	// Expected violation (set in replay files).
	Expect *Violation `json:"expect,omitempty"`
	// Free-form notes written by the minimiser (reproduction rate etc.).
	Notes []string `json:"notes,omitempty"`
}

func (p *Plan) C(key string, def int64) int64 {
	if v, ok := p.Cfg[key]; ok {
		return v
	}
	return def
}

func (p *Plan) Clone() *Plan {
	b, _ := json.Marshal(p)
	q := &Plan{}
	_ = json.Unmarshal(b, q)
	return q
}

// Violation is a property violation observed by an oracle.
type Violation struct {
	Prop string `json:"prop"`
	// Sig is the stable signature: violation class plus the specific
	// accessor / call site / history shape. It never contains seeds, hashes
	// or amounts, so that the same defect yields the same signature on every
	// run; known findings are matched on it.
	Sig  string `json:"sig"`
	Msg  string `json:"msg"`
	Step int    `json:"step"`
}

func (v *Violation) String() string {
	return fmt.Sprintf("property=%s sig=%s step=%d: %s", v.Prop, v.Sig, v.Step, v.Msg)
}

// Result of executing one plan.
type Result struct {
	Violation *Violation
	// Stats are counters: operations, faults fired (by kind), probes hit.
	Stats map[string]int64
	// StateHash summarises the abstract end state + history shape of the run
	// (for counting distinct runs).
	StateHash uint64
	// LogHash is a hash over the operation-level event log (determinism
	// self-test compares it across processes).
	LogHash uint64
	// EffOps is the number of operations that had an effect (not skipped).
	EffOps int
	// SimSeconds is the simulated time covered.
	SimSeconds float64
	// Infra is set when the run could not be executed for reasons that are
	// not a property violation (harness trouble): reported with exit code 2.
	Infra string
}

// Env is handed to Execute: scratch directory, counters and event log.
type Env struct {
	Dir   string // per-run scratch directory (tmpfs), removed by the runner
	Stats map[string]int64
	log   hasher
	state hasher
	viol  *Violation
	step  int
	Trace []string // populated when Verbose
	// Verbose makes Logf keep the text (replay mode prints it).
	Verbose bool
	effOps  int
	dlSig   string
	infra   string
}

type hasher struct{ h uint64 }

func (h *hasher) add(s string) {
	f := fnv.New64a()
	var b [8]byte
	for i := 0; i < 8; i++ {
		b[i] = byte(h.h >> (8 * i))
	}
	f.Write(b[:])
	f.Write([]byte(s))
	h.h = f.Sum64()
}

func NewEnv(dir string) *Env {
	return &Env{Dir: dir, Stats: map[string]int64{}}
}

// Count increments a counter (fault fired, probe hit, op executed...).
func (e *Env) Count(name string)        { e.Stats[name]++ }
func (e *Env) Add(name string, n int64) { e.Stats[name] += n }

// Step sets the current operation index (used in violation records).
func (e *Env) Step(i int)   { e.step = i }
func (e *Env) CurStep() int { return e.step }

// Eff records that the current operation had an effect.
func (e *Env) Eff() { e.effOps++ }

// Logf appends to the operation-level event log. It never draws from a PRNG
// and never reads a clock.
func (e *Env) Logf(format string, a ...any) {
	s := fmt.Sprintf(format, a...)
	e.log.add(s)
	if e.Verbose {
		e.Trace = append(e.Trace, s)
	}
}

// State mixes a description of the abstract state into the state hash.
func (e *Env) State(format string, a ...any) { e.state.add(fmt.Sprintf(format, a...)) }

// Fail records the first violation of the run. Later ones are ignored: the
// run is expected to stop at the first (use Failed to test).
func (e *Env) Fail(prop, sig, format string, a ...any) {
	if e.viol != nil {
		return
	}
	e.viol = &Violation{Prop: prop, Sig: sig, Msg: fmt.Sprintf(format, a...), Step: e.step}
	e.Logf("VIOLATION %s %s", prop, sig)
}

func (e *Env) Failed() bool { return e.viol != nil }

// Infra records that the run could not be executed properly for a reason that
// is not a property violation (reported with exit code 2, never as VIOLATION).
func (e *Env) Infra(format string, a ...any) {
	if e.infra == "" {
		e.infra = fmt.Sprintf(format, a...)
	}
}

func (e *Env) Result() *Result {
	return &Result{Violation: e.viol, Stats: e.Stats, StateHash: e.state.h,
		LogHash: e.log.h, EffOps: e.effOps}
}

// Sim is one simulation family (ledgersim, addrsim, ...).
type Sim interface {
	Name() string
	// Props lists the property ids this simulation can decide.
	Props() []string
	// Generate builds the plan for one seed. It may run reference models
	// but must not touch the code under test.
	Generate(prop, tier string, seed uint64) *Plan
	// Execute runs the plan against the real code inside a synctest bubble
	// (fake clock). It must be a pure function of the plan. It reports
	// through env (Fail / Count / Logf / State) and returns nothing.
	Execute(env *Env, p *Plan)
}

var sims = map[string]Sim{}
var propSim = map[string]string{}
var propSims = map[string][]string{}

// Register makes a simulation available to the runner. A property may be
// served by several simulations (C10: transaction store and address manager);
// the master runs all of them and merges what they report.
func Register(s Sim) {
	sims[s.Name()] = s
	for _, p := range s.Props() {
		if _, dup := propSim[p]; !dup {
			propSim[p] = s.Name()
		}
		propSims[p] = append(propSims[p], s.Name())
		sort.Strings(propSims[p])
	}
}

func SimFor(prop string) Sim { return sims[propSim[prop]] }

// SimsFor returns every simulation registered for a property, by name.
func SimsFor(prop string) []Sim {
	var out []Sim
	for _, n := range propSims[prop] {
		out = append(out, sims[n])
	}
	return out
}
func SimByName(n string) Sim { return sims[n] }
func RegisteredProps() []string {
	var out []string
	for p := range propSim {
		out = append(out, p)
	}
	sort.Strings(out)
	return out
}

// SortedKeys returns the keys of a counter map in sorted order (the harness
// never iterates a map in runtime order where the order could matter).
func SortedKeys[V any](m map[string]V) []string {
	ks := make([]string, 0, len(m))
	for k := range m {
		ks = append(ks, k)
	}
	sort.Strings(ks)
	return ks
}

// SigSafe makes a string usable inside a signature.
func SigSafe(s string) string {
	s = strings.Map(func(r rune) rune {
		switch {
		case r >= 'a' && r <= 'z', r >= 'A' && r <= 'Z', r >= '0' && r <= '9', r == '-', r == '_', r == '.', r == ':', r == '=':
			return r
		}
		return '_'
	}, s)
	if len(s) > 120 {
		s = s[:120]
	}
	return s
}
