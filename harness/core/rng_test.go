package core

import "testing"

func TestMixNoCollisions(t *testing.T) {
	seen := map[uint64]bool{}
	for base := uint64(1); base <= 3; base++ {
		for w := uint64(0); w < 16; w++ {
			for i := uint64(0); i < 5000; i++ {
				s := Mix(base, w, i)
				if seen[s] {
					t.Fatalf("collision base=%d w=%d i=%d", base, w, i)
				}
				seen[s] = true
			}
		}
	}
}
