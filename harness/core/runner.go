package core

import (
	"bytes"
	"encoding/json"
	"flag"
	"fmt"
	"os"
	"os/exec"
	"path/filepath"
	"runtime"
	"sort"
	"strconv"
	"strings"
	"sync"
	"testing"
	"time"
)

// Flags of the simulation binary (a test binary, because testing/synctest
// needs a *testing.T).
var (
	fMode    = flag.String("vmode", "", "master | worker | minimise | replay | selftest-worker")
	fProp    = flag.String("prop", "", "property id")
	fTier    = flag.String("tier", "quick", "quick | thorough")
	fSeed    = flag.Uint64("seed", 1, "base seed (VERIF_SEED)")
	fWorkers = flag.Int("workers", 0, "worker processes (default: number of CPUs)")
	fBudget  = flag.Float64("budget", 0, "wall-clock seconds of exploration per worker (default by tier)")
	fRuns    = flag.Int("runs", 0, "max runs per worker (0 = until budget)")
	fPlan    = flag.String("plan", "", "plan file (minimise / replay)")
	fOut     = flag.String("out", "", "output file (worker / minimise)")
	fWorker  = flag.Int("windex", 0, "worker index")
	fVerif   = flag.String("verif", "/verif", "root of /verif (evidence, replays, known findings)")
	fVerbose = flag.Bool("vverbose", false, "print the event log (replay)")
	fSimName = flag.String("sim", "", "simulation name override (default: the one registered for -prop)")
)

// ViolRec is a violation together with the plan that produced it.
type ViolRec struct {
	Plan *Plan     `json:"plan"`
	V    Violation `json:"v"`
}

// WorkerOut is what one worker process reports back to the master.
type WorkerOut struct {
	Worker     int               `json:"worker"`
	Runs       int               `json:"runs"`
	EffRuns    int               `json:"eff_runs"`
	Stats      map[string]int64  `json:"stats"`
	Hashes     []uint64          `json:"hashes"`
	SimSeconds float64           `json:"sim_seconds"`
	Violations []ViolRec         `json:"violations"`
	ViolCount  map[string]int    `json:"viol_count"`
	Samples    []*Plan           `json:"samples"`
	Infra      []string          `json:"infra"`
	LogHashes  map[string]uint64 `json:"log_hashes,omitempty"`
	WallS      float64           `json:"wall_s"`
	FirstSeed  uint64            `json:"first_seed"`
	LastSeed   uint64            `json:"last_seed"`
}

// MinEffOps is the number of effective operations a run needs to count as
// non-trivial in the evidence.
const MinEffOps = 3

// Main is called from TestMain.
func Main(m *testing.M) {
	flag.Parse()
	switch *fMode {
	case "":
		os.Exit(m.Run())
	case "master":
		os.Exit(master())
	case "selftest":
		os.Exit(selftest())
	default:
		// worker / minimise / replay run under the testing framework so that
		// synctest gets its *testing.T.
		flag.Set("test.run", "^TestSim$")
		flag.Set("test.timeout", "0")
		flag.Set("test.count", "1")
		code := m.Run()
		if exitCode != 0 {
			os.Exit(exitCode)
		}
		os.Exit(code)
	}
}

var exitCode int

// Entry is called from the single test function TestSim.
func Entry(t *testing.T) {
	switch *fMode {
	case "":
		t.Skip("not invoked by the runner")
	case "worker", "selftest-worker":
		worker(t)
	case "minimise":
		minimise(t)
	case "replay":
		replay(t)
	default:
		fmt.Fprintln(os.Stderr, "unknown -vmode", *fMode)
		exitCode = 2
	}
}

func pickSim() Sim {
	if *fSimName != "" {
		return SimByName(*fSimName)
	}
	return SimFor(*fProp)
}

func budgetSeconds() float64 {
	if *fBudget > 0 {
		return *fBudget
	}
	if s := os.Getenv("VERIF_BUDGET_S"); s != "" {
		if v, err := strconv.ParseFloat(s, 64); err == nil && v > 0 {
			return v
		}
	}
	if *fTier == "thorough" {
		return 600
	}
	return 40
}

// ---------------------------------------------------------------- worker

func worker(t *testing.T) {
	sim := pickSim()
	if sim == nil {
		fmt.Fprintf(os.Stderr, "no simulation registered for property %q\n", *fProp)
		exitCode = 2
		return
	}
	out := &WorkerOut{Worker: *fWorker, Stats: map[string]int64{}, ViolCount: map[string]int{}}
	if *fMode == "selftest-worker" {
		out.LogHashes = map[string]uint64{}
	}
	start := time.Now() // real clock: only bounds how many runs are made
	deadline := start.Add(time.Duration(budgetSeconds() * float64(time.Second)))
	seen := map[uint64]bool{}
	for i := 0; ; i++ {
		if *fRuns > 0 && i >= *fRuns {
			break
		}
		if *fRuns == 0 && time.Now().After(deadline) {
			break
		}
		seed := Mix(*fSeed, uint64(*fWorker), uint64(i))
		if *fMode == "selftest-worker" {
			// same seeds in every worker: the point is to compare them
			seed = Mix(*fSeed, 0, uint64(i))
		}
		if i == 0 {
			out.FirstSeed = seed
		}
		out.LastSeed = seed
		if *fOut != "" {
			_ = os.WriteFile(*fOut+".cur", []byte(fmt.Sprintf("%d\n", seed)), 0o644)
		}
		plan := sim.Generate(*fProp, *fTier, seed)
		plan.Sim, plan.Prop, plan.Tier, plan.Seed = sim.Name(), *fProp, *fTier, seed
		res := RunPlan(t, sim, plan, false)
		out.Runs++
		out.SimSeconds += res.SimSeconds
		for k, v := range res.Stats {
			out.Stats[k] += v
		}
		if out.LogHashes != nil {
			out.LogHashes[strconv.FormatUint(seed, 10)] = res.LogHash
		}
		if res.Infra != "" {
			out.Infra = append(out.Infra, fmt.Sprintf("seed=%d: %s", seed, res.Infra))
			if len(out.Infra) > 5 {
				break
			}
			continue
		}
		if res.EffOps >= MinEffOps {
			out.EffRuns++
			if !seen[res.StateHash] {
				seen[res.StateHash] = true
				out.Hashes = append(out.Hashes, res.StateHash)
			}
		}
		if len(out.Samples) < 2 && *fWorker == 0 && res.EffOps >= MinEffOps {
			out.Samples = append(out.Samples, plan)
		}
		if v := res.Violation; v != nil {
			out.ViolCount[v.Sig]++
			if out.ViolCount[v.Sig] <= 1 && len(out.Violations) < 12 {
				out.Violations = append(out.Violations, ViolRec{Plan: plan, V: *v})
			} else {
				// keep the smallest plan per signature
				for j := range out.Violations {
					if out.Violations[j].V.Sig == v.Sig && len(plan.Ops) < len(out.Violations[j].Plan.Ops) {
						out.Violations[j] = ViolRec{Plan: plan, V: *v}
					}
				}
			}
		}
		if i%64 == 63 {
			FreeMem()
		}
	}
	out.WallS = time.Since(start).Seconds()
	_ = os.Remove(filepath.Join(ScratchRoot(), fmt.Sprintf("verifsim-%d", os.Getpid())))
	if *fOut != "" {
		b, _ := json.Marshal(out)
		if err := os.WriteFile(*fOut, b, 0o644); err != nil {
			fmt.Fprintln(os.Stderr, "write worker output:", err)
			exitCode = 2
		}
		_ = os.Remove(*fOut + ".cur")
	}
}

// ---------------------------------------------------------------- replay

func replay(t *testing.T) {
	p, err := ReadPlan(*fPlan)
	if err != nil {
		fmt.Fprintln(os.Stderr, "replay:", err)
		exitCode = 2
		return
	}
	sim := SimByName(p.Sim)
	if sim == nil {
		fmt.Fprintln(os.Stderr, "replay: unknown simulation", p.Sim)
		exitCode = 2
		return
	}
	res := RunPlan(t, sim, p, *fVerbose)
	if res.Infra != "" {
		fmt.Println("REPLAY infra:", res.Infra)
		exitCode = 2
		return
	}
	if res.Violation == nil {
		fmt.Println("REPLAY no violation")
		return
	}
	fmt.Printf("REPLAY violation %s\n", res.Violation)
	if p.Expect != nil {
		if p.Expect.Sig == res.Violation.Sig && p.Expect.Step == res.Violation.Step {
			fmt.Println("REPLAY reproduced exactly (same signature, same step)")
		} else if p.Expect.Sig == res.Violation.Sig {
			fmt.Println("REPLAY reproduced (same signature, different step)")
		} else {
			fmt.Println("REPLAY different violation than recorded:", p.Expect.Sig)
		}
	}
	if *fOut != "" {
		b, _ := json.Marshal(res.Violation)
		_ = os.WriteFile(*fOut, b, 0o644)
	}
	exitCode = 1
}

// ---------------------------------------------------------------- minimise

func minimise(t *testing.T) {
	p, err := ReadPlan(*fPlan)
	if err != nil || p.Expect == nil {
		fmt.Fprintln(os.Stderr, "minimise: bad plan:", err)
		exitCode = 2
		return
	}
	sim := SimByName(p.Sim)
	if sim == nil {
		exitCode = 2
		return
	}
	sig := p.Expect.Sig
	deadline := time.Now().Add(time.Duration(budgetSeconds() * float64(time.Second)))
	tries, kept := 0, 0
	fails := func(q *Plan) *Violation {
		tries++
		r := RunPlan(t, sim, q, false)
		if r.Violation != nil && r.Violation.Sig == sig {
			return r.Violation
		}
		return nil
	}
	cur := p.Clone()
	cur.Expect = nil
	v0 := fails(cur)
	if v0 == nil {
		// not reproducible in this process: keep the plan as is, say so
		p.Notes = append(p.Notes, "minimiser: violation did not reproduce on re-execution; plan left unminimised")
		_ = WritePlan(*fOut, p)
		return
	}
	last := v0
	expired := func() bool { return time.Now().After(deadline) }

	// 1. faults
	if len(cur.Fault) > 0 {
		q := cur.Clone()
		q.Fault = nil
		if v := fails(q); v != nil {
			cur, last = q, v
			kept++
		} else {
			for i := 0; i < len(cur.Fault) && !expired(); {
				q := cur.Clone()
				q.Fault = append(q.Fault[:i:i], q.Fault[i+1:]...)
				if v := fails(q); v != nil {
					cur, last = q, v
					kept++
				} else {
					i++
				}
			}
		}
	}
	// 2. operations: ddmin-style chunk removal
	for chunk := (len(cur.Ops) + 1) / 2; chunk >= 1 && !expired(); {
		removed := false
		for i := 0; i+chunk <= len(cur.Ops) && !expired(); {
			q := dropOps(cur, i, chunk)
			if v := fails(q); v != nil {
				cur, last = q, v
				kept++
				removed = true
			} else {
				i += chunk
			}
		}
		if chunk == 1 && !removed {
			break
		}
		if chunk > 1 {
			chunk /= 2
		}
	}
	// 3. integer arguments towards zero
	for i := 0; i < len(cur.Ops) && !expired(); i++ {
		for j := range cur.Ops[i].A {
			for _, cand := range shrinkInts(cur.Ops[i].A[j]) {
				if expired() {
					break
				}
				q := cur.Clone()
				q.Ops[i].A[j] = cand
				if v := fails(q); v != nil {
					cur, last = q, v
					kept++
					break
				}
			}
		}
	}
	// 4. schedule: prefer the simplest strategy that still fails
	if cur.Sched != "" && !expired() {
		for _, s := range []string{"rtb0", "rtb1", "rtb2"} {
			done := false
			for k := uint64(0); k < 6 && !expired(); k++ {
				q := cur.Clone()
				q.Sched, q.SchedSeed = s, k
				if v := fails(q); v != nil {
					cur, last = q, v
					kept++
					done = true
					break
				}
			}
			if done {
				break
			}
		}
	}
	// reproduction rate of the final plan (map-order dependent failures)
	rep := 0
	const reps = 5
	for i := 0; i < reps; i++ {
		if fails(cur) != nil {
			rep++
		}
	}
	cur.Expect = last
	cur.Notes = append(cur.Notes, fmt.Sprintf("minimised from %d ops / %d faults to %d ops / %d faults in %d executions; re-executed %d times, reproduced %d",
		len(p.Ops), len(p.Fault), len(cur.Ops), len(cur.Fault), tries, reps, rep))
	if err := WritePlan(*fOut, cur); err != nil {
		fmt.Fprintln(os.Stderr, "minimise:", err)
		exitCode = 2
	}
}

func shrinkInts(v int64) []int64 {
	if v == 0 {
		return nil
	}
	c := []int64{0}
	if v > 1 || v < -1 {
		c = append(c, v/2)
	}
	if v > 0 {
		c = append(c, v-1)
	}
	return c
}

func dropOps(p *Plan, i, n int) *Plan {
	q := p.Clone()
	q.Ops = append(q.Ops[:i:i], q.Ops[i+n:]...)
	var fs []Fault
	for _, f := range q.Fault {
		switch {
		case f.Op < i:
			fs = append(fs, f)
		case f.Op >= i+n:
			f.Op -= n
			fs = append(fs, f)
		}
	}
	q.Fault = fs
	return q
}

// ---------------------------------------------------------------- master

type knownFinding struct {
	Property  string `json:"property"`
	Signature string `json:"signature"`
	Status    string `json:"status"` // known | fixed
	Commit    string `json:"commit,omitempty"`
	Text      string `json:"text"`
	// Replay, for a known finding: a plan file (relative to the /verif root)
	// that reproduces it. When the exploration of a run does not come across
	// the finding, the plan is executed so that the finding is still shown
	// for what it is on the tree under test.
	Replay string `json:"replay,omitempty"`
}

func loadKnown(root string) []knownFinding {
	b, err := os.ReadFile(filepath.Join(root, "known_findings.json"))
	if err != nil {
		return nil
	}
	var k []knownFinding
	if err := json.Unmarshal(b, &k); err != nil {
		fmt.Fprintln(os.Stderr, "known_findings.json:", err)
	}
	return k
}

func selfExe() string {
	e, err := os.Executable()
	if err != nil {
		return os.Args[0]
	}
	return e
}

func master() int {
	t0 := time.Now()
	simList := SimsFor(*fProp)
	if *fSimName != "" {
		simList = []Sim{SimByName(*fSimName)}
	}
	if len(simList) == 0 || simList[0] == nil {
		fmt.Fprintf(os.Stderr, "no simulation registered for property %q (registered: %v)\n", *fProp, RegisteredProps())
		return 2
	}
	sim := simList[0]
	nw := *fWorkers
	if nw <= 0 {
		nw = runtime.NumCPU()
	}
	cleanStaleScratch()
	tmp, err := os.MkdirTemp(ScratchRoot(), fmt.Sprintf("verifmaster-%d-", os.Getpid()))
	if err != nil {
		fmt.Fprintln(os.Stderr, err)
		return 2
	}
	defer os.RemoveAll(tmp)
	var simNames []string
	for _, s := range simList {
		simNames = append(simNames, s.Name())
	}
	perSim := budgetSeconds() / float64(len(simList))
	if *fBudget == 0 && os.Getenv("VERIF_BUDGET_S") == "" && *fTier != "thorough" && perSim < 25 {
		// a property served by several simulations: each gets a useful share
		// of the default quick budget
		perSim = 25
	}
	fmt.Printf("check property=%s sim=%s tier=%s seed=%d workers=%d budget=%.0fs\n", *fProp, strings.Join(simNames, "+"), *fTier, *fSeed, nw, budgetSeconds())

	var outs []*WorkerOut
	var errs []string
	var outMu sync.Mutex
	for _, curSim := range simList {
		curSim := curSim
		var wg sync.WaitGroup
		for w := 0; w < nw; w++ {
			wg.Add(1)
			go func(w int) {
				defer wg.Done()
				of := filepath.Join(tmp, fmt.Sprintf("%s-w%d.json", curSim.Name(), w))
				cmd := exec.Command(selfExe(), "-vmode=worker", "-prop="+*fProp, "-tier="+*fTier,
					"-seed="+strconv.FormatUint(*fSeed, 10), "-windex="+strconv.Itoa(w),
					"-budget="+fmt.Sprint(perSim), "-runs="+strconv.Itoa(*fRuns), "-out="+of, "-sim="+curSim.Name())
				cmd.Env = append(os.Environ(), "GOMAXPROCS=2")
				var eb bytes.Buffer
				cmd.Stderr = &eb
				cmd.Stdout = &eb
				// Real-time watchdog (outside every bubble): a worker whose current
				// seed has not changed for hangLimit is looping inside the code
				// under test (or blocked in an uninstrumented primitive). It is
				// killed and the seed reported as a "hang" violation with its plan.
				hung := ""
				if err := cmd.Start(); err != nil {
					outMu.Lock()
					errs = append(errs, err.Error())
					outMu.Unlock()
					return
				}
				doneCh := make(chan error, 1)
				go func() { doneCh <- cmd.Wait() }()
				var err error
				lastCur, lastChange := "", time.Now()
			wait:
				for {
					select {
					case err = <-doneCh:
						break wait
					case <-time.After(2 * time.Second):
						cur, _ := os.ReadFile(of + ".cur")
						if string(cur) != lastCur {
							lastCur, lastChange = string(cur), time.Now()
						} else if lastCur != "" && time.Since(lastChange) > hangLimit() {
							hung = strings.TrimSpace(lastCur)
							_ = cmd.Process.Kill()
							err = <-doneCh
							break wait
						}
					}
				}
				if hung != "" {
					if sd, perr := strconv.ParseUint(hung, 10, 64); perr == nil {
						crashMu.Lock()
						crashes = append(crashes, crashRec{seed: sd, site: "", trace: fmt.Sprintf("no progress for %v of real time while executing this plan; worker killed", hangLimit())})
						crashMu.Unlock()
					}
					return
				}
				b, rerr := os.ReadFile(of)
				if rerr != nil {
					cur, _ := os.ReadFile(of + ".cur")
					seedStr := strings.TrimSpace(string(cur))
					// A Go panic inside btcwallet / bbolt code on a goroutine the
					// runner cannot recover kills the worker. That is a loud
					// failure of the code under test: turn it into a violation
					// whose replay file is the plan of the seed that was running.
					if site := crashSite(eb.String()); site != "" && seedStr != "" {
						if sd, perr := strconv.ParseUint(seedStr, 10, 64); perr == nil {
							crashMu.Lock()
							crashes = append(crashes, crashRec{sim: curSim.Name(), seed: sd, site: site, trace: tail(eb.String(), 40)})
							crashMu.Unlock()
							return
						}
					}
					outMu.Lock()
					errs = append(errs, fmt.Sprintf("worker %d of %s died (err=%v) while running seed %s\n%s", w, curSim.Name(), err, seedStr, tail(eb.String(), 60)))
					outMu.Unlock()
					return
				}
				o := &WorkerOut{}
				if jerr := json.Unmarshal(b, o); jerr != nil {
					outMu.Lock()
					errs = append(errs, "worker output: "+jerr.Error())
					outMu.Unlock()
					return
				}
				outMu.Lock()
				outs = append(outs, o)
				outMu.Unlock()
			}(w)
		}
		wg.Wait()
	}

	infra := false
	for _, e := range errs {
		if e != "" {
			fmt.Println("INFRA:", e)
			infra = true
		}
	}
	// merge
	stats := map[string]int64{}
	hashes := map[uint64]bool{}
	runs, effRuns := 0, 0
	simSecs := 0.0
	var samples []*Plan
	bySig := map[string]ViolRec{}
	sigCount := map[string]int{}
	for _, o := range outs {
		if o == nil {
			continue
		}
		runs += o.Runs
		effRuns += o.EffRuns
		simSecs += o.SimSeconds
		for k, v := range o.Stats {
			stats[k] += v
		}
		for _, h := range o.Hashes {
			hashes[h] = true
		}
		samples = append(samples, o.Samples...)
		for _, s := range o.Infra {
			fmt.Println("INFRA:", s)
			infra = true
		}
		for s, n := range o.ViolCount {
			sigCount[s] += n
		}
		for _, v := range o.Violations {
			if old, ok := bySig[v.V.Sig]; !ok || len(v.Plan.Ops) < len(old.Plan.Ops) ||
				(len(v.Plan.Ops) == len(old.Plan.Ops) && v.Plan.Seed < old.Plan.Seed) {
				bySig[v.V.Sig] = v
			}
		}
	}

	known := loadKnown(*fVerif)
	isKnown := func(prop, sig string) (knownFinding, bool) {
		for _, k := range known {
			if k.Status == "known" && k.Property == prop && k.Signature == sig {
				return k, true
			}
		}
		return knownFinding{}, false
	}

	// crashed workers
	for _, c := range crashes {
		cs := SimByName(c.sim)
		if cs == nil {
			cs = sim
		}
		plan := cs.Generate(*fProp, *fTier, c.seed)
		plan.Sim, plan.Prop, plan.Tier, plan.Seed = cs.Name(), *fProp, *fTier, c.seed
		sig := "crash:" + c.site
		msg := "the process died with a Go panic inside the code under test while executing this plan:\n" + c.trace
		if c.site == "" {
			sig = "hang"
			msg = c.trace
		}
		v := Violation{Prop: *fProp, Sig: sig, Msg: msg}
		sigCount[sig]++
		if _, ok := bySig[sig]; !ok {
			bySig[sig] = ViolRec{Plan: plan, V: v}
		}
	}
	sigs := make([]string, 0, len(bySig))
	for s := range bySig {
		sigs = append(sigs, s)
	}
	sort.Strings(sigs)
	newViol := 0
	violSumm := []map[string]any{}
	minBudget := 60.0
	if *fTier == "thorough" {
		minBudget = 300
	}
	if len(sigs) > 0 {
		minBudget = minBudget / float64(len(sigs))
		if minBudget < 10 {
			minBudget = 10
		}
	}
	for _, s := range sigs {
		rec := bySig[s]
		rec.Plan.Expect = &rec.V
		if strings.HasPrefix(s, "crash:") || s == "hang" {
			// cannot be minimised in-process (every execution kills the process):
			// the replay file is the full plan; replaying it crashes the same way
			name := fmt.Sprintf("%s-%016x-%d.json", rec.V.Prop, Mix(0, hashString(s)), rec.Plan.Seed)
			dst := filepath.Join(*fVerif, "replays", name)
			rec.Plan.Notes = append(rec.Plan.Notes, "replaying this plan kills the process with the recorded panic (exit status 2 and the Go trace)")
			_ = WritePlan(dst, rec.Plan)
			c := exec.Command(selfExe(), "-vmode=replay", "-plan="+dst)
			var b bytes.Buffer
			c.Stdout, c.Stderr = &b, &b
			if s != "hang" {
				_ = c.Run()
			}
			reproduced := s != "hang" && crashSite(b.String()) == strings.TrimPrefix(s, "crash:")
			if s == "hang" {
				// Re-execute in a fresh process under the same limit. A plan
				// that completes there did not hang: the worker was stalled
				// by the machine (load, a descheduled process), which is
				// trouble of the watchdog's, not a violation.
				done := make(chan error, 1)
				if err := c.Start(); err == nil {
					go func() { done <- c.Wait() }()
					select {
					case <-done:
						reproduced = false
					case <-time.After(hangLimit()):
						_ = c.Process.Kill()
						<-done
						reproduced = true
					}
				}
				if !reproduced {
					fmt.Printf("NOTE: a worker made no progress for %v on seed %d of %s; the plan completes when re-executed in a fresh process (%s) — a stall of the machine, not reported\n", hangLimit(), rec.Plan.Seed, rec.V.Prop, dst)
					violSumm = append(violSumm, map[string]any{"signature": "stall-not-reproduced", "message": firstLine(rec.V.Msg), "occurrences": sigCount[s], "replay": dst, "replay_reproduces": false, "not_reported": true})
					continue
				}
			}
			summ := map[string]any{"signature": s, "message": firstLine(rec.V.Msg), "occurrences": sigCount[s], "replay": dst, "replay_reproduces": reproduced}
			if k, ok := isKnown(rec.V.Prop, s); ok {
				fmt.Printf("KNOWN-FINDING: property=%s %s (signature %s, replay=%s)\n", rec.V.Prop, k.Text, s, dst)
				summ["known_finding"] = true
			} else {
				fmt.Printf("violation detail: %s\n", rec.V.String())
				fmt.Printf("VIOLATION property=%s replay=%s\n", rec.V.Prop, dst)
				newViol++
			}
			violSumm = append(violSumm, summ)
			continue
		}
		raw := filepath.Join(tmp, "raw.json")
		_ = WritePlan(raw, rec.Plan)
		name := fmt.Sprintf("%s-%016x-%d.json", rec.V.Prop, Mix(0, hashString(s)), rec.Plan.Seed)
		dst := filepath.Join(*fVerif, "replays", name)
		// minimise in a child process (needs a testing.T for the bubbles)
		cmd := exec.Command(selfExe(), "-vmode=minimise", "-plan="+raw, "-out="+dst, "-budget="+fmt.Sprint(minBudget))
		var eb bytes.Buffer
		cmd.Stdout, cmd.Stderr = &eb, &eb
		if err := cmd.Run(); err != nil || !fileExists(dst) {
			fmt.Println("INFRA: minimiser failed:", err, tail(eb.String(), 20))
			_ = WritePlan(dst, rec.Plan)
		}
		// replay the file in a fresh process: it must reproduce
		rcmd := exec.Command(selfExe(), "-vmode=replay", "-plan="+dst)
		var rb bytes.Buffer
		rcmd.Stdout, rcmd.Stderr = &rb, &rb
		rerr := rcmd.Run()
		reproduced := false
		if ee, ok := rerr.(*exec.ExitError); ok && ee.ExitCode() == 1 && strings.Contains(rb.String(), "REPLAY reproduced") {
			reproduced = true
		}
		if !reproduced {
			// order-of-map-iteration dependent failures may need several attempts
			n := 0
			for i := 0; i < 32 && n == 0; i++ {
				c := exec.Command(selfExe(), "-vmode=replay", "-plan="+dst)
				var b bytes.Buffer
				c.Stdout, c.Stderr = &b, &b
				_ = c.Run()
				if strings.Contains(b.String(), "REPLAY reproduced") {
					n++
				}
			}
			reproduced = n > 0
			fmt.Printf("note: replay of %s did not reproduce at the first attempt; reproduced within 32 further attempts: %v\n", dst, reproduced)
		}
		mp, _ := ReadPlan(dst)
		nops := -1
		if mp != nil {
			nops = len(mp.Ops)
		}
		summ := map[string]any{"signature": s, "message": firstLine(rec.V.Msg), "occurrences": sigCount[s],
			"replay": dst, "replay_reproduces": reproduced, "minimised_ops": nops, "original_ops": len(rec.Plan.Ops)}
		if k, ok := isKnown(rec.V.Prop, s); ok {
			fmt.Printf("KNOWN-FINDING: property=%s %s (signature %s, %d occurrences, replay=%s)\n", rec.V.Prop, k.Text, s, sigCount[s], dst)
			summ["known_finding"] = true
		} else {
			fmt.Printf("violation detail: %s\n", rec.V.String())
			fmt.Printf("VIOLATION property=%s replay=%s\n", rec.V.Prop, dst)
			newViol++
		}
		violSumm = append(violSumm, summ)
	}

	knownShown := 0
	// known findings the exploration did not come across: execute their
	// recorded plans (a finding that is rare under random exploration is still
	// a property of the tree)
	for _, k := range known {
		if k.Status != "known" || k.Property != *fProp || k.Replay == "" {
			continue
		}
		if _, hit := bySig[k.Signature]; hit {
			continue
		}
		plan := filepath.Join(*fVerif, k.Replay)
		if mp, err := ReadPlan(plan); err != nil || mp == nil {
			continue
		} else if *fSimName != "" && mp.Sim != *fSimName {
			continue
		}
		var b bytes.Buffer
		c := exec.Command(selfExe(), "-vmode=replay", "-plan="+plan, "-verif="+*fVerif)
		c.Stdout, c.Stderr = &b, &b
		_ = c.Run()
		if strings.Contains(b.String(), "sig="+k.Signature+" ") {
			fmt.Printf("KNOWN-FINDING: property=%s %s (signature %s, not met by this run's exploration; its recorded plan %s reproduces it)\n", k.Property, k.Text, k.Signature, plan)
			violSumm = append(violSumm, map[string]any{"signature": k.Signature, "message": firstLine(k.Text), "occurrences": 0,
				"replay": plan, "replay_reproduces": true, "known_finding": true})
			knownShown++
		} else {
			fmt.Printf("note: the recorded plan %s of known finding %s no longer reproduces it on this tree\n", plan, k.Signature)
		}
	}

	wall := time.Since(t0).Seconds()
	// evidence
	level := "exploration"
	if l, ok := sim.(interface{ Level(prop string) string }); ok {
		level = l.Level(*fProp)
	}
	rule := "cases: one Plan (operation list + fault list + schedule seed + swarm configuration) per seed, generated from a single PRNG; " +
		"executed against the real btcwallet code in a synctest bubble with the oracle evaluated after every operation. " +
		fmt.Sprintf("non-trivial: the run executed at least %d effective (non-skipped) operations; distinct: different hash of (abstract model state after every operation, operation outcomes).", MinEffOps)
	for i := len(simList) - 1; i >= 0; i-- {
		if r, ok := simList[i].(interface{ Rule(prop string) string }); ok {
			rule = "[" + simList[i].Name() + "] " + r.Rule(*fProp) + " " + rule
		}
	}
	var sampleVals []any
	for i, s := range samples {
		if i >= 3 {
			break
		}
		sampleVals = append(sampleVals, trimPlan(s))
	}
	cov := map[string]any{
		"evaluations":         runs,
		"distinct_nontrivial": len(hashes),
		"rule":                rule,
		"samples":             sampleVals,
		"nontrivial_runs":     effRuns,
		"runs_per_hour":       int(float64(runs) / (wall / 3600.0)),
		"simulated_seconds":   simSecs,
		"workers":             nw,
		"seed_derivation":     "run i of worker w executes seed Mix(VERIF_SEED, w, i); one seed is one exactly repeatable execution (./check <id> --replay <file> for a recorded plan)",
		"counters":            sortedStats(stats),
		"violations_found":    violSumm,
		"exhaustive":          false,
	}
	comps := map[string]any{}
	expl := ""
	for _, s := range simList {
		if c, ok := s.(interface{ Components() map[string][]string }); ok {
			comps[s.Name()] = c.Components()
		}
		if e, ok := s.(interface {
			Explain(prop string, stats map[string]int64) string
		}); ok {
			expl += "[" + s.Name() + "] " + e.Explain(*fProp, stats) + " "
		}
	}
	if len(comps) > 0 {
		cov["components"] = comps
	}
	if expl != "" {
		cov["explanation"] = strings.TrimSpace(expl)
	}
	cov["simulations"] = simNames
	ev := map[string]any{
		"property_id": *fProp,
		"tier":        *fTier,
		"seed":        *fSeed,
		"level":       level,
		"coverage":    cov,
		"assumptions": assumptionsAll(simList),
		"wall_s":      wall,
		"violations":  newViol,
	}
	b, _ := json.MarshalIndent(ev, "", " ")
	evp := filepath.Join(*fVerif, "evidence", *fProp+".json")
	if d := os.Getenv("VERIF_EVIDENCE_DIR"); d != "" {
		// evaluations of scratch trees (seeded changes, own mutants) must not
		// overwrite the evidence of /repo
		evp = filepath.Join(d, *fProp+".json")
	}
	_ = os.MkdirAll(filepath.Dir(evp), 0o755)
	if err := os.WriteFile(evp, append(b, '\n'), 0o644); err != nil {
		fmt.Println("INFRA: cannot write evidence:", err)
		infra = true
	}
	fmt.Printf("summary property=%s runs=%d nontrivial=%d distinct=%d sim_seconds=%.0f violations=%d known=%d wall=%.1fs\n",
		*fProp, runs, effRuns, len(hashes), simSecs, newViol, len(sigs)-newViol+knownShown, wall)
	for _, k := range SortedKeys(stats) {
		if strings.HasPrefix(k, "fault.") || strings.HasPrefix(k, "probe.") {
			fmt.Printf("  %s=%d\n", k, stats[k])
		}
	}
	if newViol > 0 {
		return 1
	}
	if infra || runs == 0 {
		fmt.Println("INFRA: check could not run cleanly (exit 2; this is not a violation)")
		return 2
	}
	return 0
}

// cleanStaleScratch removes scratch directories left behind by processes that
// no longer exist (killed workers, interrupted masters).
func cleanStaleScratch() {
	ents, err := os.ReadDir(ScratchRoot())
	if err != nil {
		return
	}
	for _, e := range ents {
		n := e.Name()
		var pid int
		switch {
		case strings.HasPrefix(n, "verifsim-"):
			pid, _ = strconv.Atoi(strings.TrimPrefix(n, "verifsim-"))
		case strings.HasPrefix(n, "verifmaster-"):
			f := strings.Split(strings.TrimPrefix(n, "verifmaster-"), "-")
			if len(f) == 2 {
				pid, _ = strconv.Atoi(f[0])
			}
		case strings.HasPrefix(n, "verifself-"):
			continue
		default:
			continue
		}
		if pid <= 0 {
			continue
		}
		if _, err := os.Stat(fmt.Sprintf("/proc/%d", pid)); os.IsNotExist(err) {
			_ = os.RemoveAll(filepath.Join(ScratchRoot(), n))
		}
	}
}

// hangLimit is the real time a single run may take before the watchdog
// declares it hung (VERIF_HANG_S overrides; generous because the machine may
// be heavily loaded).
func hangLimit() time.Duration {
	if v, err := strconv.Atoi(os.Getenv("VERIF_HANG_S")); err == nil && v > 0 {
		return time.Duration(v) * time.Second
	}
	return 240 * time.Second
}

type crashRec struct {
	sim   string
	seed  uint64
	site  string
	trace string
}

var (
	crashMu sync.Mutex
	crashes []crashRec
)

// crashSite returns the first btcwallet / bbolt frame of a Go panic trace
// ("" if the output is not such a trace).
func crashSite(out string) string {
	i := strings.Index(out, "panic: ")
	if i < 0 {
		i = strings.Index(out, "fatal error: ")
	}
	if i < 0 {
		return ""
	}
	site := panicSite(out[i:])
	if site == "harness" {
		return ""
	}
	return site
}

func assumptionsAll(l []Sim) []string {
	seen := map[string]bool{}
	var out []string
	for _, s := range l {
		for _, a := range assumptions(s) {
			if !seen[a] {
				seen[a] = true
				out = append(out, a)
			}
		}
	}
	return out
}

func assumptions(sim Sim) []string {
	a := []string{
		"a clean batch is evidence over the sampled seeds, not a proof",
		"bbolt's committed transactions are durable and atomic; faults are injected at the walletdb interface the repository programs against, not below bbolt",
		"iteration order of Go maps is a function of the seed inside wallet, waddrmgr, wtxmgr and chain/block_filterer.go (range-over-map is rewritten by the instrumenter); inside dependencies (bbolt, btcd libraries) it is still the runtime's",
	}
	if x, ok := sim.(interface{ Assumptions() []string }); ok {
		a = append(a, x.Assumptions()...)
	}
	return a
}

func sortedStats(m map[string]int64) map[string]int64 { return m } // json sorts keys

func trimPlan(p *Plan) any {
	q := p.Clone()
	if len(q.Ops) > 60 {
		q.Notes = append(q.Notes, fmt.Sprintf("sample truncated: %d operations in total", len(q.Ops)))
		q.Ops = q.Ops[:60]
	}
	return q
}

func tail(s string, n int) string {
	l := strings.Split(strings.TrimRight(s, "\n"), "\n")
	if len(l) > n {
		l = l[len(l)-n:]
	}
	return strings.Join(l, "\n")
}

func firstLine(s string) string {
	if i := strings.IndexByte(s, '\n'); i >= 0 {
		return s[:i]
	}
	return s
}

func fileExists(p string) bool { _, err := os.Stat(p); return err == nil }

func hashString(s string) uint64 {
	var h hasher
	h.add(s)
	return h.h
}

// selftest: determinism. The same seeds are executed in several OS processes
// at GOMAXPROCS 1, 4 and 16; the operation-level event-log hashes must agree.
func selftest() int {
	sim := pickSim()
	if sim == nil {
		fmt.Fprintf(os.Stderr, "no simulation registered for property %q\n", *fProp)
		return 2
	}
	runs := *fRuns
	if runs == 0 {
		runs = 64
	}
	tmp, err := os.MkdirTemp(ScratchRoot(), "verifself-")
	if err != nil {
		return 2
	}
	defer os.RemoveAll(tmp)
	procs := []string{"1", "4", "16", "1", "4", "16", "2", "8", "16"}
	outs := make([]*WorkerOut, len(procs))
	var wg sync.WaitGroup
	for i, gm := range procs {
		wg.Add(1)
		go func(i int, gm string) {
			defer wg.Done()
			of := filepath.Join(tmp, fmt.Sprintf("s%d.json", i))
			cmd := exec.Command(selfExe(), "-vmode=selftest-worker", "-prop="+*fProp, "-tier="+*fTier,
				"-seed="+strconv.FormatUint(*fSeed, 10), "-windex="+strconv.Itoa(i), "-runs="+strconv.Itoa(runs), "-out="+of, "-sim="+*fSimName)
			cmd.Env = append(os.Environ(), "GOMAXPROCS="+gm)
			var eb bytes.Buffer
			cmd.Stdout, cmd.Stderr = &eb, &eb
			if err := cmd.Run(); err != nil {
				fmt.Println("selftest worker failed:", err, tail(eb.String(), 20))
				return
			}
			b, _ := os.ReadFile(of)
			o := &WorkerOut{}
			if json.Unmarshal(b, o) == nil {
				outs[i] = o
			}
		}(i, gm)
	}
	wg.Wait()
	if outs[0] == nil {
		return 2
	}
	diverged := 0
	for seed, h := range outs[0].LogHashes {
		for i := 1; i < len(outs); i++ {
			if outs[i] == nil {
				return 2
			}
			if outs[i].LogHashes[seed] != h {
				fmt.Printf("DIVERGENCE seed=%s process %d (GOMAXPROCS=%s): %x vs %x\n", seed, i, procs[i], outs[i].LogHashes[seed], h)
				diverged++
			}
		}
	}
	fmt.Printf("selftest property=%s seeds=%d processes=%d divergences=%d\n", *fProp, len(outs[0].LogHashes), len(procs), diverged)
	if diverged > 0 {
		return 1
	}
	return 0
}
