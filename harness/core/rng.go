// Package core holds what every simulation shares: the single PRNG, the Plan
// (explicit, replayable description of one run), results, the registry of
// simulations and the master/worker runner.
package core

import "encoding/binary"

// Rand is a small deterministic PRNG (splitmix64 seeding + xoshiro256**).
// Every choice of a run is drawn from one of these, derived from VERIF_SEED.
// Nothing in the harness uses math/rand's global source or a real clock.
type Rand struct{ s [4]uint64 }

func splitmix(x *uint64) uint64 {
	*x += 0x9e3779b97f4a7c15
	z := *x
	z = (z ^ (z >> 30)) * 0xbf58476d1ce4e5b9
	z = (z ^ (z >> 27)) * 0x94d049bb133111eb
	return z ^ (z >> 31)
}

// NewRand returns a generator whose whole stream is a function of seed.
func NewRand(seed uint64) *Rand {
	r := &Rand{}
	x := seed
	for i := range r.s {
		r.s[i] = splitmix(&x)
	}
	return r
}

// Mix derives an independent seed from a seed and a list of labels.
func Mix(seed uint64, labels ...uint64) uint64 {
	x := seed
	for _, l := range labels {
		// fold each label through the full mixer: neighbouring (worker, run)
		// pairs must not collide
		y := x ^ (l+1)*0xd1342543de82ef95
		x = splitmix(&y)
	}
	return splitmix(&x)
}

func rotl(x uint64, k uint) uint64 { return (x << k) | (x >> (64 - k)) }

func (r *Rand) Uint64() uint64 {
	s := &r.s
	res := rotl(s[1]*5, 7) * 9
	t := s[1] << 17
	s[2] ^= s[0]
	s[3] ^= s[1]
	s[1] ^= s[2]
	s[0] ^= s[3]
	s[2] ^= t
	s[3] = rotl(s[3], 45)
	return res
}

// Intn returns a value in [0,n). n<=0 yields 0.
func (r *Rand) Intn(n int) int {
	if n <= 1 {
		return 0
	}
	return int(r.Uint64() % uint64(n))
}

// Range returns a value in [lo,hi] inclusive.
func (r *Rand) Range(lo, hi int) int {
	if hi <= lo {
		return lo
	}
	return lo + r.Intn(hi-lo+1)
}

func (r *Rand) Int63() int64 { return int64(r.Uint64() >> 1) }

// Chance is true with probability num/den.
func (r *Rand) Chance(num, den int) bool { return r.Intn(den) < num }

func (r *Rand) Float() float64 { return float64(r.Uint64()>>11) / (1 << 53) }

func (r *Rand) Bytes(n int) []byte {
	b := make([]byte, n+8)
	for i := 0; i < n; i += 8 {
		binary.LittleEndian.PutUint64(b[i:], r.Uint64())
	}
	return b[:n]
}

func (r *Rand) Perm(n int) []int {
	p := make([]int, n)
	for i := range p {
		p[i] = i
	}
	for i := n - 1; i > 0; i-- {
		j := r.Intn(i + 1)
		p[i], p[j] = p[j], p[i]
	}
	return p
}

// Weighted picks an index with probability proportional to w[i] (w[i] >= 0).
func (r *Rand) Weighted(w []int) int {
	t := 0
	for _, x := range w {
		t += x
	}
	if t <= 0 {
		return 0
	}
	k := r.Intn(t)
	for i, x := range w {
		if k < x {
			return i
		}
		k -= x
	}
	return len(w) - 1
}

// Read implements io.Reader so a Rand can stand in for an entropy source.
func (r *Rand) Read(p []byte) (int, error) {
	copy(p, r.Bytes(len(p)))
	return len(p), nil
}
